CLAIMED = {
 "C05": {
  "text": "Held on every observed execution: ~6 000 (quick) / ~130 000 (thorough) generated operation histories on the real DataSet are compared step by step with a list-of-triples reference model, plus the exhaustive block of all sizes n<=7 (11) x all 2^n mask subsets x 3 dict styles for ascending-vs-descending construction; an icontract invariant and a constructor post-condition (caller's mask untouched) observe every DataSet in the process. Says nothing about histories/ops outside the generator.",
  "design_ref": "DESIGN.md 5/C05",
  "note": "trusts numpy arithmetic and the json module; reference model is 40 lines and self-checked at start-up; only strictly ascending/descending inputs are generated (the property's own quantifier)",
  "technique": "runtime monitoring: operation-history replay against an executable reference model + icontract invariant on the live class",
 },
 "C03": {
  "text": "Held on every observed execution: intended circuit trees (the generator is the oracle) are built through the public object API, serialised by the library at a sample of 1..17 decimals, parsed back and compared in structural normal form at the printed precision; text fixpoint, copy/deepcopy serialisation and impedance after round-trip are checked; each tree is re-spelled 6-20 ways by a grammar-directed printer (implicit outer series, omitted defaults, % limits, f/F, short/zero/open/inf, bare sub-circuit lists, white space, redundant brackets, header variants) and every spelling must parse to the same normal form. Exhaustive topologies with <=4 (5) leaves x all single-feature spelling toggles, random trees to 12 leaves with nested containers and 8 limit-state classes incl. limits outside the class defaults. Three by-design limitations are open known findings (unbalanced-brace labels, leading-punctuation labels, degenerate single-child/empty connections).",
  "design_ref": "DESIGN.md 5/C03",
  "note": "trusts CPython float<->decimal conversion; exact-text fixpoint demanded for circuits already in parser normal form (else stability after one round) and not at decimals=15 (16 significant digits do not round-trip in IEEE-754); limits that collapse at the printed precision are skipped (counted)",
  "technique": "runtime monitoring: generator-as-oracle differential check of parse/serialise over generated circuit trees and spellings",
 },
 "C04": {
  "text": "Held on every observed execution: ~1.0e6 (quick) strings are fed to the real parse_cdc and each outcome is classified by exception type and origin frame - exhaustive concatenations of <=4 atoms over a 30-atom lexical alphabet (thorough adds length 5 over a 20-atom core), <=3 (4) atoms of a 22-atom phrase alphabet, grammar-derived valid codes with every prefix, every single-character deletion and random single/double insertions/substitutions, nesting-depth probes to 3000, and a sample through cli.utility.parse_circuits. Anything other than a Circuit, a Parsing/TokenizingError or a ValueError with a message is a violation; every accepted string is simulated (result or ImpedanceError/NotImplementedError refusal) and, when its values lie within limits, its 17-decimal serialisation must be accepted and equal in normal form. Two open findings: RecursionError beyond ~100 nesting levels; overflowing literals (1e999) accepted as values whose serialisation 'INF' is rejected.",
  "design_ref": "DESIGN.md 5/C04",
  "note": "bounded-exhaustive + mutation-based string exploration; says nothing about strings outside the alphabets/mutation neighbourhoods; exception origin is taken from the innermost traceback frame",
  "technique": "runtime monitoring: exception-origin classifier over exhaustive/mutated input strings at the parser boundary",
 },
 "C01": {
  "text": "Held on every observed execution: for each generated circuit tree the real get_impedances (object route, parser route, CircuitBuilder route and the Circuit([elements])/Circuit(element)/Circuit(Parallel) overloads) is compared point by point with an extended-complex reference evaluator that walks the intended tree (series add, parallels add as reciprocals, open branch contributes nothing, shorted branch shorts); leaves are the real elements, open leaves come from a user element registered through the public API (Z = 1/G, G = 0), shorts from R = 0 / L = 0. All routes must have the same normal form and the same Z; array evaluation must equal one-frequency-at-a-time and permuted/duplicated-vector evaluation; simulate_spectrum must pair each Z with its own frequency; sub-circuits of containers are checked recursively. Every topology with <=4 (5) leaves x leaf assignments plus random trees to 12 leaves over all 23(+1) element classes.",
  "design_ref": "DESIGN.md 5/C01",
  "note": "leaf impedances are trusted here (C02 decides them); K/Ky kept positive to avoid cancellation-dominated comparisons; where a nested connection (or a container sub-circuit) is entirely open the library may raise InfiniteImpedance instead of returning the reference value",
  "technique": "runtime monitoring: differential check against an executable extended-complex reference model over generated circuit trees and frequency vectors",
 },
}
NOT_APPLICABLE = {}
