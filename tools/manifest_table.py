CLAIMED = {
 "C05": {
  "text": "Held on every observed execution: ~6 000 (quick) / ~130 000 (thorough) generated operation histories on the real DataSet are compared step by step with a list-of-triples reference model, plus the exhaustive block of all sizes n<=7 (11) x all 2^n mask subsets x 3 dict styles for ascending-vs-descending construction; an icontract invariant and a constructor post-condition (caller's mask untouched) observe every DataSet in the process. Says nothing about histories/ops outside the generator.",
  "design_ref": "DESIGN.md 5/C05",
  "note": "trusts numpy arithmetic and the json module; reference model is 40 lines and self-checked at start-up; only strictly ascending/descending inputs are generated (the property's own quantifier)",
  "technique": "runtime monitoring: operation-history replay against an executable reference model + icontract invariant on the live class",
 },
}
NOT_APPLICABLE = {}
