#!/bin/sh
# Offline setup: install icontract/deal beside the harness (git-ignored .deps).
set -e
cd "$(dirname "$0")"
if [ ! -d .deps/icontract ] || [ ! -d .deps/jsonschema ]; then
  PIP_NO_INDEX=1 /venv/bin/pip install --quiet --no-index --find-links /opt/veriftools/wheels --target .deps icontract deal jsonschema >/dev/null 2>&1 || \
  PIP_NO_INDEX=1 /venv/bin/pip install --no-index --find-links /opt/veriftools/wheels --target .deps icontract deal jsonschema
fi
mkdir -p evidence replays
exit 0
